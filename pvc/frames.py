"""Engine E4: frame / alias analysis of the pipeflow call closure.

Abstract interpretation over the AST: every expression gets a set of *location tags* it may alias
(`USER:<table>` a user element table, `USERCOL:<table>` a column buffer / view of it, `INT:<key>`
an underscore entry of the net, `RES` a result table, `OPTUSER` the stored user options,
`GLOBAL:<mod.name>` a module-level mutable object, `FLUID`, `STD`, `PARAM:<i>` the i-th parameter).
Every store (subscript / attribute / augmented assignment, mutating method, out= / copy=False
argument, del) is a *write site*; a write site whose target may alias a location outside the
function's permitted frame is a failed obligation.  Calls use the callee's summary (parameters it
writes through, what its result aliases); summaries are iterated to a fixpoint over the closure.
Dynamic dispatch over `net['component_list']` resolves to every component class.

Alias rules (assumption A4): `net[tbl]`, `.col` / `[col]` of a frame, `.values`, `.to_numpy()`,
`.index`, basic slices, `.T`, np.asarray / reshape / ravel / squeeze / transpose MAY alias their
operand; fancy / boolean indexing, arithmetic, `.copy()`, `.astype()`, np.array, np.repeat,
np.nan_to_num (default copy) and every other library call return fresh objects."""
import ast

from . import src as S
from . import classes as C

MUTATING_METHODS = {"update", "pop", "append", "extend", "clear", "sort", "fill", "setdefault", "insert",
                    "remove", "popitem", "put", "resize", "itemset", "setflags", "partition", "byteswap"}
INPLACE_KW = {"inplace", }
ALIAS_NUMPY = {"asarray", "asanyarray", "reshape", "ravel", "squeeze", "atleast_1d", "atleast_2d", "transpose",
               "swapaxes", "expand_dims", "ascontiguousarray", "asfortranarray", "broadcast_to", "view"}
ALIAS_METHODS = {"to_numpy", "reshape", "ravel", "squeeze", "transpose", "view", "swapaxes", "get", "values",
                 "keys", "items", "__getitem__", "flatten_view"}
FRESH_METHODS = {"copy", "astype", "sum", "mean", "max", "min", "any", "all", "tolist", "cumsum", "repeat",
                 "flatten", "round", "nonzero", "isin", "isnull", "notnull", "isna", "unique", "fillna", "abs",
                 "argsort", "item", "dropna", "sort_values", "apply", "map", "where", "mask", "clip", "loc", "iloc",
                 "to_dict", "to_json", "head", "tail", "join", "format", "lower", "upper", "split", "table_name",
                 "startswith", "endswith", "difference", "union", "intersection", "index"}


def net_key_tags(k):
    if k.startswith("_"):
        return {"INT:" + k}
    if k.startswith("res_"):
        return {"RES"}
    if k == "converged":
        return {"CONV"}
    if k == "user_pf_options":
        return {"OPTUSER"}
    if k == "fluid":
        return {"FLUID"}
    if k == "std_types":
        return {"STD"}
    if k == "component_list":
        return {"COMPLIST"}
    return {"USER:" + k}


def is_forbidden(tag):
    return tag.startswith(("USER:", "USERCOL:", "GLOBAL:")) or tag in ("FLUID", "STD", "OPTUSER", "COMPLIST")


class Summary:
    def __init__(self):
        self.param_writes = {}      # param index -> [(lineno, description)]
        self.ret = set()            # tags incl. PARAM:i
        self.sites = []             # (lineno, description, tags)  -- all write sites in the body
        self.net_writes = set()     # keys of net written (transitively)
        self.net_reads = set()

    def fingerprint(self):
        return (tuple(sorted((k, len(v)) for k, v in self.param_writes.items())), tuple(sorted(self.ret)),
                tuple(sorted(self.net_writes)), tuple(sorted(self.net_reads)), len(self.sites))


class Analyzer:
    def __init__(self):
        self.summaries = {}
        self.comp_classes = C.all_component_classes()
        self.method_impls = {}
        for c in self.comp_classes:
            for fq, fr in c.module.functions.items():
                if fr.cls == c.name:
                    self.method_impls.setdefault(fq.split(".")[1], {})[fr.key] = fr
        self.violations = []
        self.sites_total = 0
        self.unresolved = set()
        self.nondet = []

    # ---- call resolution ------------------------------------------------------------------------
    def resolve_call(self, fref, call):
        """-> list of FunctionRef the call may invoke (repository functions only)"""
        f = call.func
        mi = fref.module
        if isinstance(f, ast.Name):
            kind, ref = S.resolve_import(mi, f.id) if (f.id in mi.imports or f.id in mi.functions or
                                                         getattr(mi, "star_imports", None)) else ("unknown", None)
            if f.id in mi.functions:
                return [mi.functions[f.id]]
            if kind == "function":
                return [ref]
            return []
        if isinstance(f, ast.Attribute):
            name = f.attr
            base = f.value
            # super().m / cls.m / comp.m / Class.m  -> all component implementations of m
            if isinstance(base, ast.Call) and isinstance(base.func, ast.Name) and base.func.id == "super" \
                    and fref.cls is not None:
                # super().m: the next implementation after the defining class, for every component
                # class that inherits this method (their MROs may continue differently)
                out = {}
                for c in self.comp_classes + [x for x in [C.find_class(fref.cls, fref.module)] if x]:
                    chain = C.mro(c)
                    names = [x.name for x in chain]
                    if fref.cls not in names:
                        continue
                    for cc in chain[names.index(fref.cls) + 1:]:
                        qn = "%s.%s" % (cc.name, name)
                        if qn in cc.module.functions:
                            out[cc.module.functions[qn].key] = cc.module.functions[qn]
                            break
                return list(out.values())
            if isinstance(base, ast.Name) and base.id in ("cls", "self") and fref.cls is not None:
                # cls.m inside class K: the implementations K or any of its subclasses resolve m to
                out = {}
                for c in self.comp_classes + [x for x in [C.find_class(fref.cls, fref.module)] if x]:
                    if fref.cls in [x.name for x in C.mro(c)]:
                        fr = C.lookup_method(c, name)
                        if fr is not None:
                            out[fr.key] = fr
                if out:
                    return list(out.values())
            is_cls_like = (isinstance(base, ast.Name) and base.id in ("cls", "comp", "component", "self")) or \
                (isinstance(base, ast.Call) and isinstance(base.func, ast.Attribute) and
                 base.func.attr == "get_connected_node_type")
            if is_cls_like and name in self.method_impls:
                return list(self.method_impls[name].values())
            if isinstance(base, ast.Name) and (base.id in mi.classes or base.id in mi.imports):
                kind, ref = S.resolve_import(mi, base.id)
                if kind == "class":
                    fr = C.lookup_method(ref, name)
                    return [fr] if fr else []
            if isinstance(base, ast.Name) and base.id in ("fluid",) or \
                    (isinstance(base, ast.Call) and isinstance(base.func, ast.Name) and base.func.id == "get_fluid"):
                fl = S.get_module("pandapipes.properties.fluids").classes["Fluid"]
                fr = C.lookup_method(fl, name)
                return [fr] if fr else []
        return []

    def closure(self, start_keys):
        seen, work = {}, [S.get_function(k) for k in start_keys]
        while work:
            fr = work.pop()
            if fr.key in seen:
                continue
            seen[fr.key] = fr
            for n in ast.walk(fr.node):
                if isinstance(n, ast.Call):
                    cands = list(self.resolve_call(fr, n))
                    for a in list(n.args) + [k.value for k in n.keywords]:
                        if isinstance(a, ast.Name):       # function-valued argument
                            cands += self.resolve_call(fr, ast.Call(func=a, args=[], keywords=[]))
                    for cal in cands:
                        if cal.qualname == "set_user_pf_options":
                            continue      # handled by the call-site rule (only hyd_flag may be stored)
                        if cal.key not in seen:
                            work.append(cal)
        return seen

    # ---- abstract interpretation of one function ---------------------------------------------
    def analyze(self, fref, closure):
        sm = Summary()
        node = fref.node
        params = [a.arg for a in node.args.posonlyargs + node.args.args]
        if node.args.vararg:
            params.append(node.args.vararg.arg)
        if node.args.kwarg:
            params.append(node.args.kwarg.arg)
        env = {}
        for i, p in enumerate(params):
            if p == "net" or p == "multinet":
                env[p] = {"NET"}
            elif p in ("cls", "self"):
                env[p] = set()
            else:
                env[p] = {"PARAM:%d" % i}
        self._cur = (fref, sm, params, closure)
        for _ in range(3):
            before = {k: set(v) for k, v in env.items()}
            sm.sites = []
            sm.param_writes = {}
            self.block(node.body, env)
            if before == env:
                break
        return sm

    def block(self, body, env):
        for st in body:
            self.stmt(st, env)

    def write(self, lineno, desc, tags):
        fref, sm, params, _ = self._cur
        sm.sites.append((lineno, desc, set(tags)))
        for t in tags:
            if t.startswith("PARAM:"):
                sm.param_writes.setdefault(int(t[6:]), []).append((lineno, desc))
            if t.startswith("INT:"):
                sm.net_writes.add(t[4:])

    def stmt(self, st, env):
        fref, sm, params, closure = self._cur
        if isinstance(st, (ast.Assign, ast.AnnAssign)):
            val = st.value
            vt = self.tags(val, env) if val is not None else set()
            targets = st.targets if isinstance(st, ast.Assign) else [st.target]
            for t in targets:
                self.assign_target(t, vt, env, st)
        elif isinstance(st, ast.AugAssign):
            self.tags(st.value, env)
            if isinstance(st.target, ast.Name):
                tt = env.get(st.target.id, set())
                if tt:
                    self.write(st.lineno, "%s %s= ..." % (st.target.id, type(st.op).__name__), tt)
            else:
                base = st.target.value
                self.write(st.lineno, ast.unparse(st.target) + " op= ...", self.store_base_tags(st.target, env))
        elif isinstance(st, ast.Expr):
            self.tags(st.value, env)
        elif isinstance(st, ast.Return):
            if st.value is not None:
                sm.ret |= self.tags(st.value, env)
        elif isinstance(st, ast.For):
            it = self.tags(st.iter, env)
            self.assign_target(st.target, it, env, st, is_loop=True)
            self.block(st.body, env)
            self.block(st.orelse, env)
        elif isinstance(st, ast.While):
            self.tags(st.test, env)
            self.block(st.body, env)
            self.block(st.orelse, env)
        elif isinstance(st, ast.If):
            self.tags(st.test, env)
            self.block(st.body, env)
            self.block(st.orelse, env)
        elif isinstance(st, ast.With):
            for it in st.items:
                t = self.tags(it.context_expr, env)
                if it.optional_vars is not None:
                    self.assign_target(it.optional_vars, t, env, st)
            self.block(st.body, env)
        elif isinstance(st, ast.Try):
            self.block(st.body, env)
            for h in st.handlers:
                self.block(h.body, env)
            self.block(st.orelse, env)
            self.block(st.finalbody, env)
        elif isinstance(st, ast.Delete):
            for t in st.targets:
                if isinstance(t, ast.Subscript):
                    self.write(st.lineno, "del " + ast.unparse(t), self.store_base_tags(t, env))
        elif isinstance(st, (ast.Raise, ast.Assert)):
            for n in ast.iter_child_nodes(st):
                if isinstance(n, ast.expr):
                    self.tags(n, env)
        elif isinstance(st, ast.FunctionDef):
            pass

    def assign_target(self, t, vt, env, st, is_loop=False):
        if isinstance(t, ast.Name):
            env[t.id] = env.get(t.id, set()) | set(vt)
        elif isinstance(t, (ast.Tuple, ast.List)):
            for e in t.elts:
                self.assign_target(e, vt, env, st, is_loop)
        elif isinstance(t, ast.Starred):
            self.assign_target(t.value, vt, env, st, is_loop)
        elif isinstance(t, (ast.Subscript, ast.Attribute)):
            self.write(getattr(st, "lineno", 0), ast.unparse(t) + " = ...", self.store_base_tags(t, env))

    def store_base_tags(self, t, env):
        """tags of the object a store through target t modifies"""
        if isinstance(t, ast.Subscript):
            base = self.tags(t.value, env)
            if "NET" in base:
                return self.net_subscript(t.slice, env)
            return base
        if isinstance(t, ast.Attribute):
            base = self.tags(t.value, env)
            if "NET" in base:
                return net_key_tags(t.attr)
            return base
        return set()

    def net_subscript(self, sl, env):
        if isinstance(sl, ast.Constant) and isinstance(sl.value, str):
            return net_key_tags(sl.value)
        src = ast.unparse(sl)
        if src.startswith(("'res_' +", '"res_" +', "'res_' %", "f'res_", 'f"res_')) or "res_" in src.split("+")[0]:
            return {"RES"}
        if src.startswith(("'_", '"_')):
            return {"INT:_dyn"}
        return {"USER:*"}

    # ---- expressions ----------------------------------------------------------------------------
    def tags(self, e, env):
        fref, sm, params, closure = self._cur
        if e is None:
            return set()
        if isinstance(e, ast.Name):
            if e.id in env:
                return set(env[e.id])
            mi = fref.module
            if e.id in mi.const_nodes and isinstance(mi.const_nodes[e.id], (ast.Dict, ast.List, ast.Set)):
                return {"GLOBAL:%s.%s" % (mi.name, e.id)}
            if e.id in mi.imports:
                kind, ref = S.resolve_import(mi, e.id)
                if kind == "const" and isinstance(ref, (dict, list, set)):
                    return {"GLOBAL:%s" % e.id}
            return set()
        if isinstance(e, ast.Attribute):
            base = self.tags(e.value, env)
            out = set()
            for t in base:
                if t == "NET":
                    out |= net_key_tags(e.attr)
                    if e.attr.startswith("_"):
                        sm.net_reads.add(e.attr)
                elif t.startswith("USER:"):
                    out.add("USERCOL:" + t[5:])
                elif t.startswith("USERCOL:"):
                    if e.attr in ("values", "T", "index", "real", "flat", "array", "iloc", "loc", "at", "iat"):
                        out.add(t)
                else:
                    out.add(t)
            return out
        if isinstance(e, ast.Subscript):
            base = self.tags(e.value, env)
            self.tags_index(e.slice, env)
            out = set()
            for t in base:
                if t == "NET":
                    kt = self.net_subscript(e.slice, env)
                    out |= kt
                    for k in kt:
                        if k.startswith("INT:"):
                            sm.net_reads.add(k[4:])
                elif t.startswith("USER:"):
                    out.add("USERCOL:" + t[5:])
                elif t.startswith("USERCOL:"):
                    if self.is_basic_index(e.slice):
                        out.add(t)
                else:
                    out.add(t)
            return out
        if isinstance(e, ast.Call):
            return self.call_tags(e, env)
        if isinstance(e, ast.IfExp):
            self.tags(e.test, env)
            return self.tags(e.body, env) | self.tags(e.orelse, env)
        if isinstance(e, (ast.Tuple, ast.List, ast.Set)):
            out = set()
            for x in e.elts:
                out |= self.tags(x, env)
            return out
        if isinstance(e, ast.Dict):
            out = set()
            for x in e.values:
                out |= self.tags(x, env)
            return out
        if isinstance(e, ast.Starred):
            return self.tags(e.value, env)
        if isinstance(e, (ast.ListComp, ast.GeneratorExp, ast.SetComp, ast.DictComp)):
            sub = dict(env)
            for g in e.generators:
                it = self.tags(g.iter, sub)
                self.assign_target(g.target, it, sub, e)
            if isinstance(e, ast.DictComp):
                return self.tags(e.value, sub)
            return self.tags(e.elt, sub)
        if isinstance(e, (ast.BinOp, ast.BoolOp, ast.Compare, ast.UnaryOp)):
            for n in ast.iter_child_nodes(e):
                if isinstance(n, ast.expr):
                    self.tags(n, env)
            return set()
        if isinstance(e, ast.NamedExpr):
            t = self.tags(e.value, env)
            env[e.target.id] = env.get(e.target.id, set()) | t
            return t
        if isinstance(e, ast.Lambda):
            return set()
        return set()

    def tags_index(self, sl, env):
        for n in ast.walk(sl):
            if isinstance(n, ast.Call):
                self.tags(n, env)

    def is_basic_index(self, sl):
        if isinstance(sl, ast.Slice):
            return True
        if isinstance(sl, ast.Tuple):
            return all(isinstance(x, ast.Slice) or (isinstance(x, ast.Constant) and x.value is None) or
                       (isinstance(x, ast.Attribute) and x.attr == "newaxis") for x in sl.elts)
        return False

    def call_tags(self, call, env):
        fref, sm, params, closure = self._cur
        f = call.func
        argt = [self.tags(a, env) for a in call.args]
        kwt = {k.arg: self.tags(k.value, env) for k in call.keywords}
        # out= / copy=False / inplace=True write through an argument
        for k in call.keywords:
            if k.arg == "out":
                self.write(call.lineno, "out=%s" % ast.unparse(k.value), kwt["out"])
            if k.arg == "copy" and isinstance(k.value, ast.Constant) and k.value.value is False and call.args:
                nm = f.attr if isinstance(f, ast.Attribute) else getattr(f, "id", "")
                if nm in ("nan_to_num", "astype", "array"):
                    if nm == "nan_to_num":
                        self.write(call.lineno, "np.nan_to_num(%s, copy=False)" % ast.unparse(call.args[0]), argt[0])
            if k.arg in INPLACE_KW and isinstance(k.value, ast.Constant) and k.value.value is True and \
                    isinstance(f, ast.Attribute):
                self.write(call.lineno, ast.unparse(f) + "(inplace=True)", self.tags(f.value, env))
        # repository callees
        callees = self.resolve_call(fref, call)
        callees = [c for c in callees if c.key in closure]
        fname = f.attr if isinstance(f, ast.Attribute) else getattr(f, "id", "")
        if fname == "set_user_pf_options":
            kws = [k.arg for k in call.keywords]
            bad = [k for k in kws if k not in ("hyd_flag",)] or any(k.arg is None for k in call.keywords) or \
                len(call.args) > 1
            self.write(call.lineno, "set_user_pf_options(%s)" % ", ".join(str(k) for k in kws),
                       {"OPTUSER"} if bad else {"OPTUSER:hyd_flag"})
            return set()
        if fname == "get_lookup":
            sm.net_reads.add("_lookups")
            return {"INT:_lookups"}
        if fname in ("get_net_option", "get_net_options"):
            sm.net_reads.add("_options")
            return set()
        if fname == "set_net_option":
            self.write(call.lineno, "set_net_option", {"INT:_options"})
            return set()
        if fname == "get_fluid":
            return {"FLUID"}
        if fname in ("deepcopy", "copy") and not isinstance(f, ast.Attribute):
            return set()
        if callees:
            out = set()
            for cal in callees:
                cs = self.summaries.get(cal.key)
                if cs is None:
                    continue
                # bound-method style calls on cls/comp: parameter 0 is the class
                cparams = [a.arg for a in cal.node.args.posonlyargs + cal.node.args.args]
                offset = 1 if cparams[:1] in (["cls"], ["self"]) and isinstance(f, ast.Attribute) else 0
                if cparams[:1] == ["self"] and isinstance(f, ast.Attribute):
                    # receiver object is parameter 0
                    recv = self.tags(f.value, env)
                else:
                    recv = set()

                def actual(i):
                    j = i - offset
                    if i == 0 and offset:
                        return recv
                    if 0 <= j < len(argt):
                        return argt[j]
                    if i < len(cparams) and cparams[i] in kwt:
                        return kwt[cparams[i]]
                    return set()
                for i, sites in cs.param_writes.items():
                    at = actual(i)
                    if at:
                        self.write(call.lineno, "%s(...) writes its argument %s" % (
                            cal.qualname, cparams[i] if i < len(cparams) else i), at)
                for t in cs.ret:
                    if t.startswith("PARAM:"):
                        out |= actual(int(t[6:]))
                    else:
                        out.add(t)
                sm.net_writes |= cs.net_writes
                sm.net_reads |= cs.net_reads
            return out
        # library / unknown calls
        if isinstance(f, ast.Attribute):
            recv = self.tags(f.value, env)
            if f.attr in MUTATING_METHODS and recv:
                # dict.get/pop on NET handled: net.pop("_internal_data")
                if "NET" in recv and call.args and isinstance(call.args[0], ast.Constant):
                    self.write(call.lineno, ast.unparse(call), net_key_tags(str(call.args[0].value)))
                else:
                    self.write(call.lineno, ast.unparse(f) + "(...)", recv - {"NET"} or recv)
                return set()
            base_is_np = isinstance(f.value, ast.Name) and f.value.id in ("np", "numpy", "pd")
            if base_is_np:
                if f.attr in ALIAS_NUMPY and argt:
                    return set(argt[0])
                if f.attr == "array" and "copy" in kwt:
                    return set(argt[0]) if argt else set()
                return set()
            if "NET" in recv and f.attr == "get" and call.args and isinstance(call.args[0], ast.Constant):
                return net_key_tags(str(call.args[0].value))
            if f.attr in ALIAS_METHODS:
                return {("USERCOL:" + t[5:]) if t.startswith("USER:") else t for t in recv if t != "NET"}
            if f.attr in FRESH_METHODS:
                return set()
            # unknown method on a tagged receiver: result may alias the receiver (conservative for
            # containers, e.g. dict views), never a user column through arithmetic-like methods
            return {t for t in recv if t.startswith(("INT:", "PARAM:", "RES"))}
        return set()

    # ---- driver ---------------------------------------------------------------------------------
    def run(self, start_keys):
        closure = self.closure(start_keys)
        for k in closure:
            self.summaries[k] = Summary()
        for rnd in range(8):
            changed = False
            for k, fr in closure.items():
                new = self.analyze(fr, closure)
                if new.fingerprint() != self.summaries[k].fingerprint():
                    changed = True
                self.summaries[k] = new
            if not changed:
                break
        return closure


NONDET_NAMES = {"random", "time", "id", "hash", "uuid", "getpid", "urandom", "listdir", "glob", "now", "today"}


def nondeterminism_sites(closure):
    out = []
    for k, fr in closure.items():
        for n in ast.walk(fr.node):
            if isinstance(n, ast.Call):
                f = n.func
                nm = f.attr if isinstance(f, ast.Attribute) else getattr(f, "id", "")
                base = ast.unparse(f.value) if isinstance(f, ast.Attribute) else ""
                if nm in NONDET_NAMES and base.split(".")[0] in ("", "random", "time", "os", "uuid", "np.random",
                                                                 "np", "numpy", "datetime", "glob"):
                    if nm in ("id", "hash") and base:
                        continue
                    out.append((k, n.lineno, ast.unparse(n)[:80]))
                if base.endswith("random") or ".random." in ast.unparse(f):
                    out.append((k, n.lineno, ast.unparse(n)[:80]))
            if isinstance(n, ast.For):
                it = n.iter
                if isinstance(it, ast.Call) and isinstance(it.func, ast.Name) and it.func.id in ("set", "frozenset"):
                    out.append((k, n.lineno, "iteration over a set: " + ast.unparse(it)[:60]))
                if isinstance(it, ast.Set):
                    out.append((k, n.lineno, "iteration over a set literal"))
    return out


# ---------------------------------------------------------------------------------------------
# stale reads: results must not depend on what an earlier run left in the net

OPTION_FALSE = ("transient", "reuse_internal_data", "only_update_hydraulic_matrix")


class StaleChecker:
    """Flow-sensitive must-analysis along pipeflow(): the set of underscore keys of the net (and
    `converged`) that have certainly been (re)written in this run.  Reading a key that is not in
    the set is a stale read.  Conditions that only test the options assumed False (transient,
    reuse_internal_data, only_update_hydraulic_matrix) are decided; other branches are joined by
    intersection; loops and dynamic dispatch contribute reads but no guaranteed writes."""

    def __init__(self, analyzer, closure):
        self.an = analyzer
        self.closure = closure
        self.stale = []      # (function key, lineno, key, text)
        self.reads_checked = 0
        self.stack = []
        self.bindings = []
        self.local_consts = {}

    def cur_key(self):
        return self.stack[-1] if self.stack else None

    def run(self, key):
        return self.func(self.closure[key], frozenset())

    def func(self, fref, state):
        if fref.key in self.stack or len(self.stack) > 25:
            return state
        self.stack.append(fref.key)
        try:
            self.cur = fref
            out, _ = self.block(fref.node.body, set(state), fref)
        finally:
            self.stack.pop()
        return frozenset(out)

    def block(self, body, state, fref):
        for st in body:
            state, returned = self.stmt(st, state, fref)
            if returned:
                return state, True
        return state, False

    def decide(self, test):
        """True / False if the test is decided by the option preconditions, else None"""
        src = ast.unparse(test)
        if isinstance(test, ast.BoolOp):
            vals = [self.decide(v) for v in test.values]
            if isinstance(test.op, ast.Or):
                if any(v is True for v in vals):
                    return True
                if all(v is False for v in vals):
                    return False
            else:
                if any(v is False for v in vals):
                    return False
                if all(v is True for v in vals):
                    return True
            return None
        if isinstance(test, ast.UnaryOp) and isinstance(test.op, ast.Not):
            v = self.decide(test.operand)
            return None if v is None else (not v)
        if isinstance(test, ast.Name) and (self.cur_key(), test.id) in self.local_consts:
            return self.local_consts[(self.cur_key(), test.id)]
        for o in OPTION_FALSE:
            if src in ("get_net_option(net, '%s')" % o, "opts['%s']" % o, "options['%s']" % o,
                       "update_option" if o == "only_update_hydraulic_matrix" else "\0"):
                return False
        return None

    def expr_reads(self, e, state, fref, skip_decided=True):
        """check the reads in expression e (short-circuit aware for decided operands)"""
        if isinstance(e, ast.BoolOp):
            for v in e.values:
                d = self.decide(v)
                self.expr_reads(v, state, fref)
                if isinstance(e.op, ast.And) and d is False:
                    return
                if isinstance(e.op, ast.Or) and d is True:
                    return
            return
        for n in self.walk_no_boolop(e):
            key = None
            if isinstance(n, ast.Subscript) and isinstance(n.value, ast.Name) and n.value.id == "net" and \
                    isinstance(n.slice, ast.Constant) and isinstance(n.slice.value, str):
                key = n.slice.value
            elif isinstance(n, ast.Attribute) and isinstance(n.value, ast.Name) and n.value.id == "net":
                key = n.attr
            elif isinstance(n, ast.Compare) and len(n.ops) == 1 and isinstance(n.ops[0], (ast.In, ast.NotIn)) \
                    and isinstance(n.left, ast.Constant) and isinstance(n.comparators[0], ast.Name) \
                    and n.comparators[0].id == "net":
                key = n.left.value
            elif isinstance(n, ast.Call):
                fn = n.func.id if isinstance(n.func, ast.Name) else (n.func.attr if isinstance(n.func, ast.Attribute) else "")
                if fn == "get_lookup":
                    key = "_lookups"
                elif fn in ("get_net_option", "get_net_options"):
                    key = "_options"
            if key is not None and (key.startswith("_") or key == "converged"):
                if isinstance(getattr(n, "ctx", None), ast.Store):
                    continue
                self.reads_checked += 1
                if key not in state:
                    self.stale.append((fref.key, n.lineno, key, ast.unparse(n)[:70]))

    def walk_no_boolop(self, e):
        stack = [e]
        while stack:
            x = stack.pop()
            if isinstance(x, ast.BoolOp) and x is not e:
                # nested short-circuit expression: handled recursively with the same state
                self.expr_reads(x, self._state, self._fref)
                continue
            yield x
            stack.extend(ast.iter_child_nodes(x))

    def stmt(self, st, state, fref):
        self._state, self._fref = state, fref
        if isinstance(st, (ast.Assign, ast.AugAssign, ast.AnnAssign, ast.Expr, ast.Return)):
            val = getattr(st, "value", None)
            if val is not None:
                self.expr_reads(val, state, fref)
                state = self.calls(val, state, fref)
            if isinstance(st, ast.Assign) and len(st.targets) == 1 and isinstance(st.targets[0], ast.Name):
                d = self.decide(st.value)
                if d is not None:
                    self.local_consts[(fref.key, st.targets[0].id)] = d
                else:
                    self.local_consts.pop((fref.key, st.targets[0].id), None)
            if isinstance(st, ast.Assign):
                for t in st.targets:
                    k = None
                    if isinstance(t, ast.Subscript) and isinstance(t.value, ast.Name) and t.value.id == "net" and \
                            isinstance(t.slice, ast.Constant) and isinstance(t.slice.value, str):
                        k = t.slice.value
                    elif isinstance(t, ast.Attribute) and isinstance(t.value, ast.Name) and t.value.id == "net":
                        k = t.attr
                    elif isinstance(t, ast.Subscript):
                        self.expr_reads(t.value, state, fref)
                    if k is not None:
                        state = set(state) | {k}
            if isinstance(st, ast.AugAssign):
                self.expr_reads(st.target, state, fref)
            return state, isinstance(st, ast.Return)
        if isinstance(st, ast.If):
            d = self.decide(st.test)
            self.expr_reads(st.test, state, fref)
            state = self.calls(st.test, state, fref)
            if d is True:
                return self.block(st.body, set(state), fref)
            if d is False:
                return self.block(st.orelse, set(state), fref)
            s1, r1 = self.block(st.body, set(state), fref)
            s2, r2 = self.block(st.orelse, set(state), fref)
            if r1 and not r2:
                return s2, False
            if r2 and not r1:
                return s1, False
            return set(s1) & set(s2), r1 and r2
        if isinstance(st, (ast.For, ast.While)):
            if isinstance(st, ast.For):
                self.expr_reads(st.iter, state, fref)
            else:
                self.expr_reads(st.test, state, fref)
            inner, _ = self.block(st.body, set(state), fref)
            # a while loop whose test reads net.converged / counters executes its body at least
            # once only under conditions we do not track: no guaranteed writes
            return set(state), False
        if isinstance(st, ast.Try):
            s1, r1 = self.block(st.body, set(state), fref)
            for h in st.handlers:
                self.block(h.body, set(state), fref)
            return set(state) & set(s1) | (set(s1) if not st.handlers else set()), False
        if isinstance(st, ast.Raise):
            return state, True
        if isinstance(st, ast.With):
            return self.block(st.body, state, fref)
        return state, False

    def calls(self, e, state, fref):
        """apply the repository callees of expression e in evaluation order"""
        calls = [n for n in ast.walk(e) if isinstance(n, ast.Call)]
        calls.sort(key=lambda n: (n.end_lineno, n.end_col_offset))
        for c in calls:
            callees = [x for x in self.an.resolve_call(fref, c) if x.key in self.closure]
            if not callees and isinstance(c.func, ast.Name) and self.bindings and c.func.id in self.bindings[-1]:
                callees = [self.bindings[-1][c.func.id]]      # function-valued parameter
            if not callees:
                continue
            if len(callees) == 1 and not self.is_dispatch(c):
                cal = callees[0]
                params = [a.arg for a in cal.node.args.posonlyargs + cal.node.args.args]
                bind = {}
                for i, a in enumerate(c.args):
                    if isinstance(a, ast.Name) and i < len(params):
                        r = self.an.resolve_call(fref, ast.Call(func=a, args=[], keywords=[]))
                        r = [x for x in r if x.key in self.closure]
                        if len(r) == 1:
                            bind[params[i]] = r[0]
                self.bindings.append(bind)
                try:
                    state = set(self.func(cal, frozenset(state)))
                finally:
                    self.bindings.pop()
            else:
                for cal in callees:
                    self.func(cal, frozenset(state))     # reads checked, writes not guaranteed
        return state

    def is_dispatch(self, c):
        f = c.func
        return isinstance(f, ast.Attribute) and isinstance(f.value, ast.Name) and f.value.id in ("comp", "component")
