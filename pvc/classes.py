"""Class hierarchy of the repository (component models): method resolution along the declared
bases, used for the behavioural-subtyping obligations (every registered subclass is checked)."""
from . import src as S


def find_class(name, hint_module=None):
    if hint_module is not None:
        kind, ref = S.resolve_import(hint_module, name)
        if kind == "class":
            return ref
    for m in S.all_repo_modules():
        try:
            mi = S.get_module(m)
        except S.SourceError:
            continue
        if name in mi.classes:
            return mi.classes[name]
    return None


def mro(cref):
    """linearisation along the first-listed bases (the repository uses single inheritance)"""
    out = [cref]
    seen = {cref.key}
    work = [cref]
    while work:
        c = work.pop(0)
        for b in c.bases:
            bc = find_class(b, c.module)
            if bc is not None and bc.key not in seen:
                seen.add(bc.key)
                out.append(bc)
                work.append(bc)
    return out


def lookup_method(cref, name):
    for c in mro(cref):
        qn = "%s.%s" % (c.name, name)
        if qn in c.module.functions:
            return c.module.functions[qn]
    return None


def is_exception_class(cref):
    for c in mro(cref):
        for b in c.bases:
            if b in ("Exception", "ppException", "UserWarning", "ValueError", "BaseException",
                     "Warning", "KeyError", "RuntimeError"):
                return True
    return False


def all_component_classes():
    """every class deriving from Component in component_models (and the stanet valve-pipe)"""
    out = []
    for m in S.all_repo_modules(exclude=("test", "plotting", "networks")):
        if ".component_models" not in m and "valve_pipe_component" not in m:
            continue
        mi = S.get_module(m)
        for c in mi.classes.values():
            names = [x.name for x in mro(c)]
            if "Component" in names:
                out.append(c)
    return out
