"""Engine E1: symbolic python values of unknown type (`PV`) and dictionaries with string keys over
a finite key universe  K = literal keys + one generic key kappa  (`SymDict`).

A SymDict maps every key of the universe to (present: Bool, value: PyVal).  kappa stands for an
arbitrary key different from all literals; code that only addresses literal keys therefore never
touches kappa, and a VC about kappa is a VC about *every* other key."""
import z3
from fractions import Fraction
from .val import *  # noqa
from . import val as V

PyVal = z3.DeclareSort("PyVal")
_truthy = z3.Function("truthy", PyVal, z3.BoolSort())
_pylen = z3.Function("pylen", PyVal, z3.IntSort())
_pylt = z3.Function("pylt", PyVal, PyVal, z3.BoolSort())
_pyisnan = z3.Function("pyisnan", PyVal, z3.BoolSort())
_pyint = z3.Function("pyint", PyVal, z3.IntSort())
_consts = {}      # python value -> z3 const


def pv_const(x):
    if isinstance(x, PV):
        return x.t
    if isinstance(x, float):
        x = Fraction(repr(x))
    key = (type(x).__name__, x)
    if isinstance(x, bool):
        key = ("bool", x)
    elif isinstance(x, (int, Fraction)):
        key = ("num", Fraction(x))
    if key not in _consts:
        _consts[key] = (z3.Const("py!%s!%s" % (key[0], str(key[1]).replace(" ", "_")), PyVal), x)
    return _consts[key][0]


def pv_axioms():
    """distinctness of the literal constants and their truth values"""
    cs = [c for c, _ in _consts.values()]
    ax = []
    if len(cs) > 1:
        ax.append(z3.Distinct(*cs))
    for c, x in _consts.values():
        ax.append(_truthy(c) == z3.BoolVal(bool(x)))
    return ax


class PV:
    """a python value of unknown type"""

    def __init__(self, t):
        self.t = t

    def cmp(self, op, other):
        o = pv_const(other)
        if op == "==":
            return self.t == o
        if op == "!=":
            return self.t != o
        # ordering of untyped values: an uninterpreted relation (TypeError for unordered types not modelled)
        lt = _pylt(self.t, o) if op in ("<", ">=") else _pylt(o, self.t)
        return lt if op in ("<", ">") else z3.Not(lt)

    def is_none(self):
        return self.t == pv_const(None)

    def truthy(self):
        return _truthy(self.t)

    def isnan(self):
        return _pyisnan(self.t)

    def as_int(self):
        return _pyint(self.t)

    def item(self):
        """element of an untyped sequence: a fresh untyped value"""
        return PV(z3.FreshConst(PyVal, "item"))

    def length(self):
        """len() of an untyped value: an uninterpreted non-negative integer (raising TypeError for
        objects without a length is not modelled: the callers document sequences here)"""
        return _pylen(self.t)

    def __repr__(self):
        return "PV(%s)" % self.t


def to_pv(x):
    if isinstance(x, PV):
        return x
    if x is None or isinstance(x, (bool, int, Fraction, str, float)):
        return PV(pv_const(x))
    if is_z3(x) and x.sort() == PyVal:
        return PV(x)
    raise Unsupported("cannot store %r in a symbolic dictionary" % (x,))


KAPPA = "<kappa>"


class SymDict:
    def __init__(self, universe, name, present=None, value=None, others=None):
        self.universe = list(universe)
        self.name = name
        self.present = dict(present) if present is not None else {}
        self.value = dict(value) if value is not None else {}
        # "some key outside the universe is present" (only matters for emptiness)
        self.others = others if others is not None else z3.Bool(name + "!others")
        self.writes = []
        if present is None:
            for k in self.universe:
                self.present[k] = z3.Bool("%s!has!%s" % (name, k))
                self.value[k] = z3.Const("%s!val!%s" % (name, k), PyVal)

    @staticmethod
    def from_concrete(universe, d, name):
        pres, val = {}, {}
        for k in universe:
            if k in d:
                pres[k] = True
                val[k] = to_pv(d[k]).t
            else:
                pres[k] = False
                val[k] = pv_const(None)
        sd = SymDict(universe, name, pres, val, others=False)
        extra = [k for k in d if k not in universe]
        if extra:
            raise Unsupported("key %r outside the key universe" % (extra[0],))
        return sd

    def _key(self, k):
        if not isinstance(k, str):
            raise Unsupported("non-string dictionary key %r" % (k,))
        if k not in self.present:
            raise Unsupported("key %r is not in the key universe of %s" % (k, self.name))
        return k

    # ---- evaluator protocol -----------------------------------------------------------------
    def getitem(self, ev, key, lineno):
        k = self._key(key)
        from .ev import _Raise, ExcVal
        p = self.present[k]
        if p is False or (is_z3(p) and z3.is_false(z3.simplify(p))):
            raise _Raise(ExcVal("KeyError", (k,)))
        if p is not True:
            if not ev.decide(p, lineno):
                raise _Raise(ExcVal("KeyError", (k,)))
        return PV(self.value[k])

    def setitem(self, ev, key, v, lineno):
        k = self._key(key)
        self.present[k] = True
        self.value[k] = to_pv(v).t
        self.writes.append(k)

    def delitem(self, ev, key, lineno):
        k = self._key(key)
        self.present[k] = False
        self.writes.append(k)

    def contains(self, ev, key):
        return self.present[self._key(key)]

    def truthy(self):
        return bor(self.others, *[self.present[k] for k in self.universe])

    def length(self):
        raise Unsupported("len() of a symbolic dictionary")

    def merge_into(self):
        return True

    def keyset(self):
        return KeySet(self)

    def deepcopy(self, ev):
        return SymDict(self.universe, self.name + "'", self.present, self.value, self.others)

    def snapshot(self):
        return (dict(self.present), dict(self.value))

    def getattr_(self, ev, attr, lineno):
        if attr in ("get", "pop", "update", "keys", "items", "copy", "setdefault", "values"):
            return _SDMethod(self, attr)
        raise Unsupported("attribute %s of a symbolic dictionary" % attr)


class SymItems:
    """d.items() of a SymDict; supported consumer: a dict comprehension {k: v for k, v in d.items() if ...}"""

    def __init__(self, sd):
        self.sd = sd


def comprehend(ev, node, env, items):
    """{key_expr: value_expr for k, v in d.items() if cond}  over a symbolic dictionary:
    present'[k] = present[k] and cond(k, v); the key expression must be the loop key itself"""
    import ast as _ast
    from .ev import Env
    sd = items.sd
    g = node.generators[0]
    if len(node.generators) != 1 or not isinstance(g.target, _ast.Tuple) or len(g.target.elts) != 2:
        raise Unsupported("dict comprehension shape over symbolic items")
    kname, vname = g.target.elts[0].id, g.target.elts[1].id
    if not (isinstance(node.key, _ast.Name) and node.key.id == kname):
        raise Unsupported("dict comprehension re-keys a symbolic dictionary")
    out = SymDict.from_concrete(sd.universe, {}, sd.name + "|filtered")
    for k in sd.universe:
        e = Env(env.module, ev, parent=env)
        e.set(kname, k)
        e.set(vname, PV(sd.value[k]))
        cond = True
        for c in g.ifs:
            cv = ev.eval_cond(c, e)
            if hasattr(cv, "truthy"):
                cv = cv.truthy()
            cond = band(cond, cv)
        val = ev.eval(node.value, e)
        out.present[k] = band(sd.present[k], cond)
        out.value[k] = to_pv(val).t
    # keys outside the universe: kept iff the filter keeps them -- unknown, so a fresh boolean
    out.others = z3.And(B(sd.others), z3.Bool(sd.name + "!others_kept")) if sd.others is not False else False
    return out


class KeySet:
    """set(d.keys()) of a SymDict: supports difference with concrete sets and len()>0 tests"""

    def __init__(self, sd, removed=()):
        self.sd = sd
        self.removed = set(removed)

    def binop(self, ev, opname, other, reflected):
        if opname == "Sub" and not reflected:
            if isinstance(other, KeySet):
                raise Unsupported("difference of two symbolic key sets")
            return KeySet(self.sd, self.removed | set(other))
        raise Unsupported("set operation %s on symbolic keys" % opname)

    def length(self):
        return KeyCount(self)

    def concrete_iter(self):
        # only used for log messages
        return []


class KeyCount:
    def __init__(self, ks):
        self.ks = ks

    def cmp(self, op, other):
        nonempty = bor(*[self.ks.sd.present[k] for k in self.ks.sd.universe
                         if k not in self.ks.removed])
        if op == ">" and other == 0:
            return nonempty
        if op == "==" and other == 0:
            return bnot(nonempty)
        raise Unsupported("comparison of a symbolic key count")


class _SDMethod:
    def __init__(self, sd, name):
        self.sd = sd
        self.name = name

    def call(self, ev, args, kwargs, lineno):
        sd = self.sd
        if self.name == "get":
            k = sd._key(args[0])
            default = args[1] if len(args) > 1 else None
            p = sd.present[k]
            if p is True:
                return PV(sd.value[k])
            if p is False:
                return default
            return PV(z3.If(B(p), sd.value[k], to_pv(default).t))
        if self.name == "pop":
            k = sd._key(args[0])
            p = sd.present[k]
            if len(args) > 1:
                out = PV(sd.value[k]) if p is True else (
                    args[1] if p is False else PV(z3.If(B(p), sd.value[k], to_pv(args[1]).t)))
            else:
                from .ev import _Raise, ExcVal
                if p is not True and not ev.decide(p, lineno):
                    raise _Raise(ExcVal("KeyError", (k,)))
                out = PV(sd.value[k])
            sd.present[k] = False
            sd.writes.append(k)
            return out
        if self.name == "update":
            srcs = list(args)
            if "__symdict__" in kwargs:
                srcs.append(kwargs["__symdict__"])
            elif kwargs:
                srcs.append(dict(kwargs))
            for s in srcs:
                if isinstance(s, dict):
                    s = SymDict.from_concrete(sd.universe, s, "lit")
                for k in sd.universe:
                    ps = s.present[k]
                    sd.present[k] = bor(ps, sd.present[k])
                    sd.value[k] = s.value[k] if ps is True else (
                        sd.value[k] if ps is False else z3.If(B(ps), s.value[k], sd.value[k]))
                    sd.writes.append(k)
                sd.others = bor(sd.others, s.others)
            return None
        if self.name == "keys":
            return KeySet(sd)
        if self.name == "items":
            return SymItems(sd)
        if self.name == "copy":
            return sd.deepcopy(ev)
        raise Unsupported("method %s of a symbolic dictionary" % self.name)


def merge_dicts(ev, parts):
    """{**a, **b, 'k': v, ...} with at least one SymDict operand"""
    uni = None
    for k, v in parts:
        if k == "**" and isinstance(v, SymDict):
            uni = v.universe
            break
    out = SymDict.from_concrete(uni, {}, "merged")
    for k, v in parts:
        if k == "**":
            if isinstance(v, dict):
                v = SymDict.from_concrete(uni, dict(v), "lit")
            for kk in uni:
                ps = v.present[kk]
                out.value[kk] = v.value[kk] if ps is True else (
                    out.value[kk] if ps is False else z3.If(B(ps), v.value[kk], out.value[kk]))
                out.present[kk] = bor(ps, out.present[kk])
            out.others = bor(out.others, v.others)
        else:
            out.present[k] = True
            out.value[k] = to_pv(v).t
    out.writes = []
    return out


class TrackedDict(dict):
    """module-level dictionary of the repository (e.g. default_options): writes are recorded"""

    def __init__(self, *a, **k):
        dict.__init__(self, *a, **k)
        self.writes = []

    def __setitem__(self, k, v):
        self.writes.append(k)
        dict.__setitem__(self, k, v)

    def __delitem__(self, k):
        self.writes.append(k)
        dict.__delitem__(self, k)

    def pop(self, k, *a):
        self.writes.append(k)
        return dict.pop(self, k, *a)

    def update(self, *a, **k):
        for x in a:
            self.writes.extend(list(x.keys()) if hasattr(x, "keys") else [])
        self.writes.extend(k.keys())
        return dict.update(self, *a, **k)

    def setdefault(self, k, d=None):
        if k not in self:
            self.writes.append(k)
        return dict.setdefault(self, k, d)

    def clear(self):
        self.writes.append("<clear>")
        dict.clear(self)
