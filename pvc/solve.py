"""Discharging obligations: z3 (python API) first, cvc5 (CLI, SMT-LIB 2) for what z3 leaves
open; in the thorough tier every obligation is re-discharged by cvc5 and a disagreement
(proved vs refuted) is a checker fault."""
import os
import subprocess
import tempfile
import time
import z3

Z3_TIMEOUT_MS = int(os.environ.get("PVC_Z3_TIMEOUT_MS", "20000"))
CVC5_TIMEOUT_S = int(os.environ.get("PVC_CVC5_TIMEOUT_S", "30"))
CVC5 = "/usr/bin/cvc5"


class Verdict:
    PROVED = "proved"
    REFUTED = "refuted"
    UNKNOWN = "unknown"


def _smt2(assumptions, goal):
    s = z3.Solver()
    for a in assumptions:
        s.add(a)
    s.add(z3.Not(goal))
    return s.to_smt2()


def run_cvc5(smt2, timeout_s=CVC5_TIMEOUT_S):
    txt = smt2
    if "(set-logic" not in txt:
        txt = "(set-logic ALL)\n" + txt
    with tempfile.NamedTemporaryFile("w", suffix=".smt2", delete=False, dir=_outdir()) as f:
        f.write(txt)
        path = f.name
    try:
        t0 = time.time()
        p = subprocess.run([CVC5, "--tlimit=%d" % (timeout_s * 1000), "--nl-ext-tplanes", path],
                           capture_output=True, text=True, timeout=timeout_s + 10)
        out = (p.stdout or "").strip().splitlines()
        res = out[0].strip() if out else "unknown"
        return res, time.time() - t0
    except subprocess.TimeoutExpired:
        return "unknown", timeout_s
    finally:
        try:
            os.unlink(path)
        except OSError:
            pass


def _outdir():
    d = os.path.join(os.path.dirname(os.path.dirname(os.path.abspath(__file__))), "out", "smt")
    os.makedirs(d, exist_ok=True)
    return d


def prove(assumptions, goal, timeout_ms=None, use_cvc5=True, cross_check=False, tactic=None):
    """returns dict(verdict, backend, seconds, model (z3 ModelRef or None), reason)"""
    timeout_ms = timeout_ms or Z3_TIMEOUT_MS
    t0 = time.time()
    if isinstance(goal, bool):
        goal = z3.BoolVal(goal)
    s = z3.Solver()
    s.set("timeout", timeout_ms)
    for a in assumptions:
        s.add(a)
    s.add(z3.Not(goal))
    r = s.check()
    dt = time.time() - t0
    out = {"backend": "z3-" + z3.get_version_string(), "seconds": dt, "model": None, "reason": ""}
    if r == z3.unsat:
        out["verdict"] = Verdict.PROVED
    elif r == z3.sat:
        out["verdict"] = Verdict.REFUTED
        out["model"] = s.model()
    else:
        out["verdict"] = Verdict.UNKNOWN
        out["reason"] = s.reason_unknown()
        # second attempt: nlsat-free tactic pipeline
        try:
            t = z3.Then("simplify", "solve-eqs", "smt")
            s2 = t.solver()
            s2.set("timeout", timeout_ms)
            for a in assumptions:
                s2.add(a)
            s2.add(z3.Not(goal))
            r2 = s2.check()
            if r2 == z3.unsat:
                out["verdict"] = Verdict.PROVED
                out["backend"] += " (simplify;solve-eqs;smt)"
            elif r2 == z3.sat:
                out["verdict"] = Verdict.REFUTED
                out["model"] = s2.model()
        except z3.Z3Exception:
            pass
        out["seconds"] = time.time() - t0
    if (out["verdict"] == Verdict.UNKNOWN and use_cvc5) or cross_check:
        try:
            res, secs = run_cvc5(_smt2(assumptions, goal))
        except Exception as e:  # noqa
            res, secs = "unknown", 0.0
            out["reason"] += " cvc5 error: %s" % e
        if cross_check:
            out["cvc5"] = res
            out["cvc5_seconds"] = secs
            if (res == "unsat" and out["verdict"] == Verdict.REFUTED) or \
                    (res == "sat" and out["verdict"] == Verdict.PROVED):
                out["disagreement"] = True
        if out["verdict"] == Verdict.UNKNOWN:
            out["seconds"] += secs
            if res == "unsat":
                out["verdict"] = Verdict.PROVED
                out["backend"] = "cvc5-1.0.3"
            elif res == "sat":
                # a cvc5 counter-model is not parsed; the obligation is reported refuted without
                # a model (-> no-failing-input-found unless the replay finds one by search)
                out["verdict"] = Verdict.REFUTED
                out["backend"] = "cvc5-1.0.3"
    return out


def satisfiable(formulas, timeout_ms=5000):
    s = z3.Solver()
    s.set("timeout", timeout_ms)
    for f in formulas:
        s.add(f)
    r = s.check()
    return r == z3.sat, (s.model() if r == z3.sat else None), str(r)
