"""Discharging obligations: z3 (python API) first, cvc5 (CLI, SMT-LIB 2) for what z3 leaves
open; in the thorough tier every obligation is re-discharged by cvc5 and a disagreement
(proved vs refuted) is a checker fault."""
import os
import subprocess
import tempfile
import time
import z3

Z3_TIMEOUT_MS = int(os.environ.get("PVC_Z3_TIMEOUT_MS", "20000"))
CVC5_TIMEOUT_S = int(os.environ.get("PVC_CVC5_TIMEOUT_S", "30"))
CVC5_CROSS_S = int(os.environ.get("PVC_CVC5_CROSS_S", "8"))
CVC5 = "/usr/bin/cvc5"
# deterministic resource limit per solver call (z3 "rlimit"): verdicts do not depend on machine load
RLIMIT = int(os.environ.get("PVC_RLIMIT", "40000000"))
# wall-clock budgets are only a safety net behind the deterministic rlimit: they are stretched by this factor so
# that a busy machine (16 cores shared with other jobs) does not turn a provable obligation into `unknown`
TF = float(os.environ.get("PVC_TIME_FACTOR", "8"))
SMALL_RL = int(os.environ.get("PVC_SMALL_RLIMIT", "3000000"))


# z3 5.1's Diophantine-equation module (lp.dio) has loops over exploding big rationals that poll neither the timeout nor the
# resource limit (one obligation on a mutated tree ran for 30 CPU-minutes inside lp::dioph_eq::imp::substitute_on_q); the
# classical integer machinery (cuts, branching) stays on
z3.set_param("lp.dio", False)


class Verdict:
    PROVED = "proved"
    REFUTED = "refuted"
    UNKNOWN = "unknown"


def _smt2(assumptions, goal):
    s = z3.Solver()
    for a in assumptions:
        s.add(a)
    s.add(z3.Not(goal))
    return s.to_smt2()


def run_cvc5(smt2, timeout_s=CVC5_TIMEOUT_S):
    txt = smt2
    if "(set-logic" not in txt:
        txt = "(set-logic ALL)\n" + txt
    with tempfile.NamedTemporaryFile("w", suffix=".smt2", delete=False, dir=_outdir()) as f:
        f.write(txt)
        path = f.name
    try:
        t0 = time.time()
        p = subprocess.run([CVC5, "--tlimit=%d" % (timeout_s * 1000), "--nl-ext-tplanes", path],
                           capture_output=True, text=True, timeout=timeout_s + 10)
        out = (p.stdout or "").strip().splitlines()
        res = out[0].strip() if out else "unknown"
        return res, time.time() - t0
    except subprocess.TimeoutExpired:
        return "unknown", timeout_s
    finally:
        try:
            os.unlink(path)
        except OSError:
            pass


def _outdir():
    d = os.path.join(os.environ.get("PVC_OUT") or os.path.join(
        os.path.dirname(os.path.dirname(os.path.abspath(__file__))), "out"), "smt")
    os.makedirs(d, exist_ok=True)
    return d


_LAST_RL = {}


def _rl_note(stage, solver, res):
    if not os.environ.get("PVC_RLTRACE"):
        return
    try:
        st = solver.statistics()
        rl = [st.get_key_value(k) for k in st.keys() if k == "rlimit count"]
        cur = rl[0] if rl else -1
        global _LAST_RL
        d = cur - _LAST_RL.get(os.getpid(), 0)
        _LAST_RL[os.getpid()] = cur
        with open(os.environ["PVC_RLTRACE"], "a") as f:
            f.write("%s %s %s\n" % (stage, res, d))
    except Exception:  # noqa
        pass


def prove(assumptions, goal, timeout_ms=None, use_cvc5=True, cross_check=False, tactic=None, rlimit=None, quick=False,
          hard_wall_ms=None):
    """returns dict(verdict, backend, seconds, model (z3 ModelRef or None), reason)"""
    timeout_ms = timeout_ms or Z3_TIMEOUT_MS
    t0 = time.time()
    RL = rlimit or RLIMIT
    # hard_wall_ms: for pure optimisation queries (choice of a smaller assumption set) whose outcome never
    # changes a verdict -- a flat wall-clock cap, not stretched (z3 does not poll rlimit inside some nla loops)
    tf = TF if hard_wall_ms is None else 1.0
    if hard_wall_ms is not None:
        timeout_ms = hard_wall_ms
    if isinstance(goal, bool):
        goal = z3.BoolVal(goal)
    out = {"backend": "z3-" + z3.get_version_string(), "seconds": 0.0, "model": None, "reason": "",
           "verdict": Verdict.UNKNOWN}
    # portfolio: plain SMT core first (fast and stable on the row-wise kernel VCs), then the
    # grounded + UF-abstracted query on nlsat (complete for QF_NRA), then the default tactic
    try:
        rel = relevant(assumptions, goal)
    except Exception:  # noqa
        rel = None
    tried_abs = False
    if rel is not None and len(rel) < len(flatten(assumptions)):
        # the cone-of-influence query: first with a small budget (covers ~99 % of the obligations), then -- for
        # full-budget calls -- the nlsat route on the grounded, UF-abstracted query (nonlinear identities with
        # divisions are decided there in milliseconds while the SMT core may need minutes), then the full budget
        budgets = [RL] if (quick or RL <= SMALL_RL) else [SMALL_RL, "nl-as-uf", RL]
        for bud in budgets:
            if bud == "nl-as-uf":
                b = prove_nl_as_uf(rel, goal)
                if b is not None:
                    out["verdict"] = Verdict.PROVED
                    out["backend"] = b
                    out["seconds"] = time.time() - t0
                    return _finish(out, assumptions, goal, use_cvc5, cross_check)
                continue
            s0 = z3.SimpleSolver()
            # the first (small-budget) attempt has a flat 3 s wall-clock cap: z3 does not poll rlimit inside its nla
            # loops, and the attempts that follow carry the stretched budgets, so a miss here never changes a verdict
            first_small = len(budgets) > 1 and bud == budgets[0]
            s0.set("timeout", 3000 if first_small else int(min(timeout_ms, 4000) * tf))
            s0.set("rlimit", bud)
            for a in rel:
                s0.add(a)
            s0.add(z3.Not(goal))
            r0_ = s0.check()
            _rl_note("cone", s0, r0_)
            if r0_ == z3.unsat:
                out["verdict"] = Verdict.PROVED
                out["backend"] = "z3-%s (smt-core, cone of influence)" % z3.get_version_string()
                out["seconds"] = time.time() - t0
                return _finish(out, assumptions, goal, use_cvc5, cross_check)
            if r0_ == z3.sat:
                break       # the cone is weaker than the full assumption set: decide on the full query
    # (budgets are rlimit-bound, so a second smt-core stage with a longer wall-clock budget would repeat the first)
    stages = [("smt-core", z3.SimpleSolver, min(timeout_ms, 6000)),
              ("abstracted", None, min(timeout_ms, 10000)),
              ("default", z3.Solver, timeout_ms)]
    if quick:
        stages = stages[:1]
    for name, mk, tmo in stages:
        if name == "abstracted":
            if tried_abs:
                continue
            b = prove_abstracted(assumptions, goal, tmo)
            if b is not None:
                out["verdict"] = Verdict.PROVED
                out["backend"] = b
                break
            continue
        if quick and name != "smt-core":
            continue
        s = mk()
        s.set("timeout", int(tmo * tf))
        s.set("rlimit", RL if name == "smt-core" else max(RL // 4, 1000000))
        for a in assumptions:
            s.add(a)
        s.add(z3.Not(goal))
        r = s.check()
        _rl_note(name, s, r)
        if r == z3.unsat:
            out["verdict"] = Verdict.PROVED
            out["backend"] = "z3-%s (%s)" % (z3.get_version_string(), name)
            break
        if r == z3.sat:
            out["verdict"] = Verdict.REFUTED
            out["model"] = s.model()
            out["backend"] = "z3-%s (%s)" % (z3.get_version_string(), name)
            break
        out["reason"] = s.reason_unknown()
    out["seconds"] = time.time() - t0
    return _finish(out, assumptions, goal, use_cvc5, cross_check)


def _finish(out, assumptions, goal, use_cvc5, cross_check):
    if (out["verdict"] == Verdict.UNKNOWN and use_cvc5) or cross_check:
        try:
            # the cross-check of an obligation z3 has already decided gets a short budget; an open one the full budget
            res, secs = run_cvc5(_smt2(assumptions, goal),
                                 timeout_s=CVC5_TIMEOUT_S if out["verdict"] == Verdict.UNKNOWN else CVC5_CROSS_S)
        except Exception as e:  # noqa
            res, secs = "unknown", 0.0
            out["reason"] += " cvc5 error: %s" % e
        if cross_check:
            out["cvc5"] = res
            out["cvc5_seconds"] = secs
            if (res == "unsat" and out["verdict"] == Verdict.REFUTED) or \
                    (res == "sat" and out["verdict"] == Verdict.PROVED):
                out["disagreement"] = True
        if out["verdict"] == Verdict.UNKNOWN:
            out["seconds"] += secs
            if res == "unsat":
                out["verdict"] = Verdict.PROVED
                out["backend"] = "cvc5-1.0.3"
            elif res == "sat":
                # a cvc5 counter-model is not parsed; the obligation is reported refuted without
                # a model (-> no-failing-input-found unless the replay finds one by search)
                out["verdict"] = Verdict.REFUTED
                out["backend"] = "cvc5-1.0.3"
    return out


def satisfiable(formulas, timeout_ms=5000):
    s = z3.Solver()
    s.set("timeout", int(timeout_ms * TF))
    s.set("rlimit", RLIMIT)
    for f in formulas:
        s.add(f)
    r = s.check()
    return r == z3.sat, (s.model() if r == z3.sat else None), str(r)


# ---------------------------------------------------------------------------------------------
# nonlinear operators as uninterpreted functions (a sound weakening for PROVING: every model of the negated
# obligation under real arithmetic is a model of the abstraction with mul!/div! interpreted as * and /; so
# unsat of the abstraction implies unsat of the original).  Twin equalities whose two sides have the same
# operator structure are decided by congruence closure in milliseconds this way; sat answers are ignored.

_MUL = z3.Function("mul!uf", z3.RealSort(), z3.RealSort(), z3.RealSort())
_DIV = z3.Function("div!uf", z3.RealSort(), z3.RealSort(), z3.RealSort())
_POW = z3.Function("pow!uf", z3.RealSort(), z3.RealSort(), z3.RealSort())


def nl_as_uf(formulas):
    cache = {}

    def is_num(t):
        return z3.is_rational_value(t) or z3.is_int_value(t) or z3.is_algebraic_value(t)

    def ab(t):
        i = t.get_id()
        if i in cache:
            return cache[i]
        if z3.is_quantifier(t):
            if t.num_vars() and (z3.is_app(t.body()) or z3.is_quantifier(t.body())):
                nb = ab(t.body())
                vs = [z3.Const(t.var_name(k), t.var_sort(k)) for k in range(t.num_vars())]
                # de Bruijn bodies: rebuild through substitute_vars on fresh constants is fragile; keep quantified
                # formulas as they are (they hold no nonlinear operator in the obligations generated here)
                r = t
            else:
                r = t
        elif z3.is_app(t) and t.num_args() > 0:
            args = [ab(t.arg(k)) for k in range(t.num_args())]
            k_ = t.decl().kind()
            if k_ == z3.Z3_OP_MUL and z3.is_real(t):
                nums = [a for a in args if is_num(a)]
                rest = sorted([a for a in args if not is_num(a)], key=lambda a: a.get_id())
                if len(rest) <= 1:
                    r = t.decl()(*args)
                else:
                    acc = rest[0]
                    for a in rest[1:]:
                        acc = _MUL(acc, a)
                    for c in nums:
                        acc = c * acc
                    r = acc
            elif k_ == z3.Z3_OP_DIV and not is_num(args[1]):
                r = _DIV(args[0], args[1])
            elif k_ == z3.Z3_OP_POWER and not (is_num(args[1]) and is_num(args[0])):
                r = _POW(args[0], args[1])
            else:
                r = t.decl()(*args)
        else:
            r = t
        cache[i] = r
        return r
    return [ab(f) for f in formulas]


def prove_nl_as_uf(assumptions, goal, rlimit=None):
    try:
        fs = nl_as_uf(list(assumptions) + [goal])
    except Exception:  # noqa
        return None
    s = z3.SimpleSolver()
    s.set("timeout", int(4000 * TF))
    s.set("rlimit", rlimit or SMALL_RL)
    for a in fs[:-1]:
        s.add(a)
    s.add(z3.Not(fs[-1]))
    r = s.check()
    _rl_note("nl-as-uf", s, r)
    if r == z3.unsat:
        return "z3-%s (nonlinear operators as uninterpreted functions, congruence)" % z3.get_version_string()
    return None


# ---------------------------------------------------------------------------------------------
# grounding + abstraction (a sound weakening: valid abstraction => valid original)

def _collect_apps(t, out, seen):
    stack = [t]
    while stack:
        x = stack.pop()
        i = x.get_id()
        if i in seen:
            continue
        seen.add(i)
        if z3.is_quantifier(x):
            continue          # ground terms only
        if z3.is_app(x):
            d = x.decl()
            if d.kind() == z3.Z3_OP_UNINTERPRETED and x.num_args() > 0:
                out.append(x)
            stack.extend(x.children())


def _body_patterns(q):
    """uninterpreted applications inside the quantifier body that have a bound variable as a
    direct argument: [(decl, argument position)]"""
    pats = []
    stack = [q.body()]
    while stack:
        x = stack.pop()
        if z3.is_quantifier(x):
            stack.append(x.body())
            continue
        if z3.is_app(x):
            d = x.decl()
            if d.kind() == z3.Z3_OP_UNINTERPRETED and x.num_args() > 0:
                for k in range(x.num_args()):
                    a = x.arg(k)
                    if z3.is_var(a):
                        pats.append((d, k))
                    elif z3.is_app(a) and a.num_args() == 1 and z3.is_var(a.arg(0)) and \
                            a.decl().kind() in (z3.Z3_OP_TO_REAL, z3.Z3_OP_TO_INT):
                        pats.append((d, k))
            stack.extend(x.children())
    return pats


def ground(assumptions, goal, rounds=3):
    """replace single-variable universally quantified assumptions by their instances at the
    ground terms that E-matching would select; other quantified assumptions are dropped"""
    ground_as = [a for a in assumptions if not z3.is_quantifier(a)]
    quants = [a for a in assumptions if z3.is_quantifier(a) and a.is_forall() and a.num_vars() == 1]
    inst_done = set()
    cur = list(ground_as) + [goal]
    for _ in range(rounds):
        apps, seen = [], set()
        for f in cur:
            _collect_apps(f, apps, seen)
        new = []
        for q in quants:
            pats = _body_patterns(q)
            if not pats:
                continue
            vs = q.var_sort(0)
            cands = {}
            for ap in apps:
                for d, k in pats:
                    if ap.decl().eq(d) and ap.num_args() > k:
                        a = ap.arg(k)
                        if a.sort() == vs:
                            cands[a.get_id()] = a
                        elif z3.is_app(a) and a.num_args() == 1 and a.arg(0).sort() == vs:
                            cands[a.arg(0).get_id()] = a.arg(0)
            for tid, t in cands.items():
                key = (q.get_id(), tid)
                if key in inst_done:
                    continue
                inst_done.add(key)
                new.append(z3.substitute_vars(q.body(), t))
        if not new:
            break
        ground_as.extend(new)
        cur = new
    return ground_as, goal


def abstract_ufs(formulas):
    """replace every ground uninterpreted application by a fresh constant (innermost first,
    syntactically equal terms share the constant)"""
    cache = {}
    names = {}

    def ab(t):
        i = t.get_id()
        if i in cache:
            return cache[i]
        if z3.is_quantifier(t) or not z3.is_app(t) or t.num_args() == 0:
            cache[i] = t
            return t
        kids = [ab(c) for c in t.children()]
        d = t.decl()
        if d.kind() == z3.Z3_OP_UNINTERPRETED:
            key = (d.name(), tuple(k.get_id() for k in kids))
            if key not in names:
                names[key] = z3.Const("abs!%s!%d" % (d.name(), len(names)), t.sort())
            r = names[key]
        else:
            try:
                r = d(*kids) if kids else t
            except Exception:  # noqa
                r = t
        cache[i] = r
        return r
    return [ab(f) for f in formulas]


def _symbols(t, cache):
    i = t.get_id()
    if i in cache:
        return cache[i][1]
    out = set()
    stack = [t]
    seen = set()
    while stack:
        x = stack.pop()
        xi = x.get_id()
        if xi in seen:
            continue
        seen.add(xi)
        if z3.is_quantifier(x):
            stack.append(x.body())
            continue
        if z3.is_app(x):
            d = x.decl()
            if d.kind() == z3.Z3_OP_UNINTERPRETED:
                out.add(d.name())
            stack.extend(x.children())
    cache[i] = (t, out)
    return out


def flatten(assumptions):
    out = []
    stack = list(assumptions)
    while stack:
        a = stack.pop()
        if z3.is_and(a):
            stack.extend(a.children())
        else:
            out.append(a)
    return out


def relevant(assumptions, goal):
    """cone of influence: the assumptions that share uninterpreted symbols (transitively) with
    the goal.  Dropping assumptions is sound for proving."""
    cache = {}
    flat = flatten(assumptions)
    syms = [(_symbols(a, cache), a) for a in flat]
    cur = set(_symbols(goal, cache))
    keep = [False] * len(flat)
    changed = True
    while changed:
        changed = False
        for k, (ss, a) in enumerate(syms):
            if not keep[k] and (ss & cur or not ss):
                keep[k] = True
                if not ss <= cur:
                    cur |= ss
                    changed = True
    return [a for k, (ss, a) in enumerate(syms) if keep[k]]


def prove_abstracted(assumptions, goal, timeout_ms):
    try:
        gas, g = ground(assumptions, goal)
        fs = abstract_ufs(gas + [g])
        ab_as, ab_goal = fs[:-1], fs[-1]
    except Exception:  # noqa
        return None
    for mk in (z3.Solver, z3.SimpleSolver):
        s = mk()
        s.set("timeout", int(timeout_ms * TF))
        s.set("rlimit", max(RLIMIT // 4, 1000000))
        for a in ab_as:
            s.add(a)
        s.add(z3.Not(ab_goal))
        if s.check() == z3.unsat:
            return "z3-%s (grounded, UF-abstracted %s)" % (z3.get_version_string(),
                                                            "nlsat" if mk is z3.Solver else "smt")
    return None


# ---------------------------------------------------------------------------------------------
# bounded-instance refutation for obligations the provers leave open

def _int_consts(fs):
    out, seen = {}, set()
    stack = list(fs)
    while stack:
        x = stack.pop()
        i = x.get_id()
        if i in seen:
            continue
        seen.add(i)
        if z3.is_quantifier(x):
            stack.append(x.body())
            continue
        if z3.is_app(x):
            if x.num_args() == 0 and x.decl().kind() == z3.Z3_OP_UNINTERPRETED and z3.is_int(x):
                out[x.decl().name()] = x
            stack.extend(x.children())
    return out


def _expand(f, dom_int, ground_reals, depth=0):
    """expand top-level universally quantified conjuncts over a finite domain"""
    if z3.is_and(f):
        out = []
        for c in f.children():
            out.extend(_expand(c, dom_int, ground_reals, depth))
        return out
    if z3.is_quantifier(f) and f.is_forall():
        nv = f.num_vars()
        doms = []
        for k in range(nv):
            s = f.var_sort(k)
            if s.kind() == z3.Z3_INT_SORT:
                doms.append(dom_int)
            elif s.kind() == z3.Z3_REAL_SORT:
                doms.append(ground_reals or [z3.RealVal(1)])
            else:
                return [f]
        import itertools
        total = 1
        for d in doms:
            total *= len(d)
        if total > 400:
            return [f]
        out = []
        for combo in itertools.product(*doms):
            # de Bruijn: variable 0 is the LAST bound variable
            inst = z3.substitute_vars(f.body(), *reversed(combo))
            out.extend(_expand(inst, dom_int, ground_reals, depth + 1) if depth < 2 else [inst])
        return out
    return [f]


def refute_bounded(assumptions, goal, size=2, timeout_ms=20000):
    """search for a counter-model of a bounded instance: all size-like integer constants are <= size,
    universally quantified assumptions are expanded over the index domain 0..size (and over the
    ground real terms for real-sorted variables).  Returns a model or None."""
    fs = flatten(assumptions)
    consts = _int_consts(fs + [goal])
    sizeish = [c for n, c in consts.items() if n in ("NB", "NN", "NE", "NL", "NQ", "NHC", "NIDX", "NLOOKUP")
               or n.startswith(("cnt!", "ngroups!", "npairs!", "NB", "NN"))]
    dom = [z3.IntVal(k) for k in range(0, size + 1)]
    apps, seen = [], set()
    for f in fs + [goal]:
        _collect_apps(f, apps, seen)
    reals = {}
    for ap in apps:
        for k in range(ap.num_args()):
            a = ap.arg(k)
            if z3.is_real(a) and not z3.is_quantifier(a):
                reals[a.get_id()] = a
    ground_reals = list(reals.values())[:6]
    s = z3.SimpleSolver()
    s.set("timeout", int(timeout_ms * TF))
    s.set("rlimit", RLIMIT)
    for c in sizeish:
        s.add(c <= size)
    for f in fs:
        for g in _expand(f, dom, ground_reals):
            s.add(g)
    s.add(z3.Not(goal))
    if s.check() == z3.sat:
        return s.model()
    return None
